// Kani harnesses for the xlsx shared-formula rewriting (src/xlsx/mod.rs): coordinate_to_name, replace_cell_names.
// Oracles are written here from the property text (C15) / the A1 notation, never from the code under test.

/// spreadsheet column letters of a 0-based column < 16384: closed form of bijective base-26 (A..Z, AA..ZZ, AAA..XFD)
fn o_letters(col: u32, out: &mut [u8; 3]) -> usize {
    if col < 26 {
        out[0] = b'A' + col as u8;
        1
    } else if col < 26 + 676 {
        let c = col - 26;
        out[0] = b'A' + (c / 26) as u8;
        out[1] = b'A' + (c % 26) as u8;
        2
    } else {
        let c = col - 702;
        out[0] = b'A' + (c / 676) as u8;
        out[1] = b'A' + ((c / 26) % 26) as u8;
        out[2] = b'A' + (c % 26) as u8;
        3
    }
}
/// decimal digits of v (1..=9999999), most significant first
fn o_decimal(v: u32, out: &mut [u8; 10]) -> usize {
    let mut n = 1;
    let mut p = 10u64;
    while (v as u64) >= p {
        n += 1;
        p *= 10;
    }
    let mut i = 0;
    let mut x = v;
    while i < n {
        out[n - 1 - i] = b'0' + (x % 10) as u8;
        x /= 10;
        i += 1;
    }
    n
}

fn check_name(row: u32, col: u32) {
    let v = coordinate_to_name((row, col)).unwrap();
    let mut l = [0u8; 3];
    let nl = o_letters(col, &mut l);
    let mut d = [0u8; 10];
    let nd = o_decimal(row + 1, &mut d);
    assert!(v.len() == nl + nd);
    let mut i = 0;
    while i < nl {
        assert!(v[i] == l[i]);
        i += 1;
    }
    let mut j = 0;
    while j < nd {
        assert!(v[nl + j] == d[j]);
        j += 1;
    }
}
// coordinate_to_name = concat(letters(col), decimal(row + 1)): the two halves are independent, and a harness symbolic in both
// does not finish (7 min probe), so each axis is swept separately.
#[kani::proof]
#[kani::unwind(12)]
fn coordinate_to_name_rows() {
    let row: u32 = kani::any();
    kani::assume(row < 100);
    kani::cover!(row == 99);
    check_name(row, 27);
}
#[kani::proof]
#[kani::unwind(12)]
fn coordinate_to_name_cols() {
    let col: u32 = kani::any();
    kani::assume(col < 16384);
    kani::cover!(col == 16383);
    kani::cover!(col == 26);
    check_name(7, col);
}
/// the letter-count boundaries of the bijective base-26 column name (Z|AA = 25|26, ZZ|AAA = 701|702, the 26*26 = 676 look-alike, XFD):
/// concrete columns, so that the quick tier sees them too (the full sweep `coordinate_to_name_cols` is thorough tier)
#[kani::proof]
#[kani::unwind(12)]
fn coordinate_to_name_col_boundaries() {
    check_name(7, 25);
    check_name(7, 26);
    check_name(7, 51);
    check_name(7, 52);
    check_name(7, 675);
    check_name(7, 676);
    check_name(7, 701);
    check_name(7, 702);
    check_name(7, 703);
    check_name(7, 1377);
    check_name(7, 1378);
    check_name(7, 16383);
}
// (Err for col >= 16384: a harness with a symbolic out-of-range column did not finish in 7 min; the clause is carried by the Verus unit
// `shared` through column_number_to_name's contract proved in unit a1.)
/// C06: no panic for any coordinate, in particular row == u32::MAX (`cell.0 as u64 + 1`)
#[kani::proof]
#[kani::unwind(12)]
fn coordinate_to_name_total() {
    let row: u32 = kani::any();
    kani::assume(row >= 0xFFFF_FFF0);
    let _ = coordinate_to_name((row, 0));
}

// ------------------------------------------------------------------------------------------------------------------
// replace_cell_names against an oracle written from the property C15 (token based, independent of the scanner in the code):
//  * text inside double quotes and inside single-quoted sheet names is copied;
//  * outside, a TOKEN is a maximal run of identifier characters [A-Za-z0-9_.$] or non-ASCII bytes; a token is a cell reference iff the
//    WHOLE token matches `$?[A-Z]{1,3}$?[0-9]{1,7}` (column <= XFD, row <= 1048576) and it is not followed by `(` (function name) or
//    `!` (sheet name); a reference is re-spelled with its relative components moved by the offset, `$` components unchanged;
//  * every other token and every other character is copied.
fn o_is_tok(c: u8) -> bool {
    c.is_ascii_alphanumeric() || c == b'_' || c == b'.' || c == b'$' || c >= 0x80
}
/// Some((col_abs, col, row_abs, row)) (0-based) iff the whole token is a cell reference
fn o_parse_ref(t: &[u8]) -> Option<(bool, u32, bool, u32)> {
    let n = t.len();
    let mut i = 0;
    let col_abs = i < n && t[i] == b'$';
    if col_abs {
        i += 1;
    }
    let mut col: u32 = 0;
    let mut nl = 0;
    while i < n && t[i] >= b'A' && t[i] <= b'Z' && nl < 4 {
        col = col * 26 + (t[i] - b'A') as u32 + 1;
        nl += 1;
        i += 1;
    }
    if nl < 1 || nl > 3 || col > 16384 {
        return None;
    }
    let row_abs = i < n && t[i] == b'$';
    if row_abs {
        i += 1;
    }
    let mut row: u32 = 0;
    let mut nd = 0;
    while i < n && t[i] >= b'0' && t[i] <= b'9' && nd < 8 {
        row = row * 10 + (t[i] - b'0') as u32;
        nd += 1;
        i += 1;
    }
    if nd < 1 || nd > 7 || i != n || row < 1 || row > 1048576 {
        return None;
    }
    Some((col_abs, col - 1, row_abs, row - 1))
}
const OMAX: usize = 48;
fn o_translate(f: &[u8], dr: u32, dc: u32, out: &mut [u8; OMAX]) -> usize {
    let n = f.len();
    let mut o = 0;
    let mut i = 0;
    let mut in_q = false;
    while i < n {
        let c = f[i];
        if c == b'"' {
            in_q = !in_q;
            out[o] = c;
            o += 1;
            i += 1;
        } else if in_q {
            out[o] = c;
            o += 1;
            i += 1;
        } else if c == b'\'' {
            out[o] = c;
            o += 1;
            i += 1;
            while i < n && f[i] != b'\'' {
                out[o] = f[i];
                o += 1;
                i += 1;
            }
            if i < n {
                out[o] = f[i];
                o += 1;
                i += 1;
            }
        } else if o_is_tok(c) {
            let st = i;
            while i < n && o_is_tok(f[i]) {
                i += 1;
            }
            let next = if i < n { f[i] } else { 0 };
            let r = if next == b'(' || next == b'!' { None } else { o_parse_ref(&f[st..i]) };
            match r {
                Some((ca, col, ra, row)) => {
                    if ca {
                        out[o] = b'$';
                        o += 1;
                    }
                    let mut l = [0u8; 3];
                    let nl = o_letters(if ca { col } else { col + dc }, &mut l);
                    let mut j = 0;
                    while j < nl {
                        out[o] = l[j];
                        o += 1;
                        j += 1;
                    }
                    if ra {
                        out[o] = b'$';
                        o += 1;
                    }
                    let mut d = [0u8; 10];
                    let nd = o_decimal(if ra { row + 1 } else { row + dr + 1 }, &mut d);
                    let mut j = 0;
                    while j < nd {
                        out[o] = d[j];
                        o += 1;
                        j += 1;
                    }
                }
                None => {
                    let mut j = st;
                    while j < i {
                        out[o] = f[j];
                        o += 1;
                        j += 1;
                    }
                }
            }
        } else {
            out[o] = c;
            o += 1;
            i += 1;
        }
    }
    o
}
/// the member formula must be the oracle's translation of the master formula
fn check_shape(f: &str, dr: u32, dc: u32) {
    let mut want = [0u8; OMAX];
    let n = o_translate(f.as_bytes(), dr, dc, &mut want);
    let got = replace_cell_names(f, (dr as i64, dc as i64));
    assert!(got.is_ok());
    let got = got.unwrap();
    let g = got.as_bytes();
    assert!(g.len() == n);
    let mut i = 0;
    while i < n {
        assert!(g[i] == want[i]);
        i += 1;
    }
}
// Concrete formula shapes, offset (rows, cols) = (1, 2): CBMC acts as an interpreter of the real code here.  A harness with symbolic
// characters (or several shapes in one harness, unwind 50) did not terminate in 7 min: the scanner grows two Vecs, decodes/validates
// UTF-8 and calls to_string.  One shape per harness, unwind bound = length + 4 (a too small bound is reported as a failed unwinding assertion).
macro_rules! shape {
    ($name:ident, $unwind:expr, $f:expr) => {
        #[kani::proof]
        #[kani::unwind($unwind)]
        fn $name() {
            check_shape($f, 1, 2);
        }
    };
}
// all expected to hold (rcn_relative_ref, rcn_range, rcn_function_name_with_digits, rcn_sheet_name_like_cell are registered; the others are kept here but NOT registered: see kani/xlsxf.json "not_registered")
shape!(rcn_relative_ref, 8, "A1");
shape!(rcn_range, 10, "A1:B2");
shape!(rcn_absolute_and_relative, 12, "$A$1+A1");
shape!(rcn_string_literal, 12, "\"A1\"&A1");
shape!(rcn_function_digit_letter, 16, "DEC2BIN(A1)"); // letter+digit+letter followed by `(`
shape!(rcn_sheet_digit_letter, 15, "Q1Sales!A1"); // sheet name with a digit followed by a letter
// failed before the scanner was rewritten (`$` as separator, names rewritten, `c as u8`)
shape!(rcn_mixed_col_absolute, 8, "$A1");
shape!(rcn_mixed_row_absolute, 8, "A$1");
// (no closing parenthesis: `)` would flush an empty pending name, offset_cell_reference returns Err for it and CBMC does not get through
// the drop glue of XlsxError -- see "not_registered" in kani/xlsxf.json; the scanner is lexical, the oracle handles the same text)
shape!(rcn_function_name_with_digits, 14, "LOG10(A1");
shape!(rcn_function_name_with_digits_closed, 14, "LOG10(A1)");
shape!(rcn_sheet_name_like_cell, 10, "Q1!A1");
shape!(rcn_non_ascii_text, 12, "\"\u{e9}\"&A1");
