// get_dimension: bounded harnesses on the real function (its split/map/collect chain is outside Verus).
// Oracle written from the property text: "A1:B2" -> (A1, B2); a single reference -> start == end.

/// forward-parsing oracle for a cell name: letters (any case) then digits, 1-based -> 0-based
fn oracle_cell(s: &[u8]) -> Option<(u32, u32)> {
    let mut i = 0;
    let mut col: u32 = 0;
    while i < s.len() && s[i].is_ascii_alphabetic() {
        col = col * 26 + (s[i].to_ascii_uppercase() - b'A') as u32 + 1;
        i += 1;
    }
    let nl = i;
    let mut row: u32 = 0;
    while i < s.len() && s[i].is_ascii_digit() {
        row = row * 10 + (s[i] - b'0') as u32;
        i += 1;
    }
    if i != s.len() || nl == 0 || row == 0 {
        return None;
    }
    Some((row - 1, col - 1))
}

/// "XX:YY"-shaped inputs: two cell names of exactly 2 bytes each; every byte symbolic
#[kani::proof]
#[kani::unwind(7)]
fn get_dimension_two_cells() {
    let b: [u8; 5] = kani::any();
    kani::assume(b[2] == b':');
    kani::assume(b[0] != b':' && b[1] != b':' && b[3] != b':' && b[4] != b':');
    let a = oracle_cell(&b[0..2]);
    let c = oracle_cell(&b[3..5]);
    // reversed references make the clean tree panic in `parts[1].0 - parts[0].0` (registered finding): ordered ones here
    if let (Some(p), Some(q)) = (a, c) {
        kani::assume(p.0 <= q.0 && p.1 <= q.1);
    }
    kani::cover!(a.is_some() && c.is_some());
    let r = get_dimension(&b);
    match (a, c) {
        (Some(p), Some(q)) => {
            let d = r.unwrap();
            assert!(d.start == p && d.end == q);
        }
        _ => assert!(r.is_err()),
    }
}

/// a single reference of 1..3 symbolic bytes: start == end
#[kani::proof]
#[kani::unwind(6)]
fn get_dimension_single_cell() {
    let b: [u8; 3] = kani::any();
    let n: usize = kani::any();
    kani::assume(n >= 1 && n <= 3);
    kani::assume(b[0] != b':' && b[1] != b':' && b[2] != b':');
    let a = oracle_cell(&b[..n]);
    kani::cover!(a.is_some());
    let r = get_dimension(&b[..n]);
    match a {
        Some(p) => {
            let d = r.unwrap();
            assert!(d.start == p && d.end == p);
        }
        None => assert!(r.is_err()),
    }
}

/// reversed corners: subtraction underflow (registered finding C06)
#[kani::proof]
#[kani::unwind(7)]
fn get_dimension_reversed_total() {
    let _ = get_dimension(b"B2:A1");
}
